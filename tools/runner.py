"""Persistent line-protocol clients for the Lean driver (model) and digexec (real library)."""
import json
import os
import subprocess

VERIF = os.path.dirname(os.path.dirname(os.path.abspath(__file__)))
DRIVER = os.path.join(VERIF, "lean", ".lake", "build", "bin", "driver")
DIGEXEC = os.path.join(VERIF, "harness", "digexec")

EXTRA_KEYS = ("panicMsg", "dotText", "dotNames", "fatalMsg", "vizJoin")


def _big_stack():
    """the model driver recurses as deep as the graph or the dependency chain it is given: a roomy stack (1 GiB, or
    whatever the hard limit allows) instead of the default 8 MiB"""
    import resource
    soft, hard = resource.getrlimit(resource.RLIMIT_STACK)
    want = 1 << 30
    if hard != resource.RLIM_INFINITY:
        want = min(want, hard)
    try:
        resource.setrlimit(resource.RLIMIT_STACK, (want, hard))
    except (ValueError, OSError):
        pass


def _iface_ids():
    import universe
    return {t["id"] for t in universe.TYPES if t["kind"] == "iface"}


_IFACE = None


def canon_zero(j):
    """a nil interface value has no dynamic type: the executor prints it under the static type of the position it was read
    from, the model under the type it was produced as (they differ when an interface-typed result is provided As another
    interface) -- both become {"zero":"iface"}; slices are sorted again afterwards"""
    global _IFACE
    if _IFACE is None:
        _IFACE = _iface_ids()
    if isinstance(j, dict):
        if len(j) == 1 and "zero" in j and j["zero"] in _IFACE:
            return {"zero": "iface"}
        out = {k: canon_zero(v) for k, v in j.items()}
        if len(out) == 1 and isinstance(out.get("sl"), list):
            out["sl"] = sorted(out["sl"], key=lambda x: json.dumps(x, separators=(",", ":"), sort_keys=True))
        return out
    if isinstance(j, list):
        return [canon_zero(x) for x in j]
    return j


class Proc:
    def __init__(self, argv):
        self.argv = argv
        self.p = None

    def start(self):
        self.p = subprocess.Popen(self.argv, stdin=subprocess.PIPE, stdout=subprocess.PIPE,
                                  stderr=subprocess.DEVNULL, bufsize=0, preexec_fn=_big_stack)

    def ask(self, line):
        if self.p is None or self.p.poll() is not None:
            self.start()
        try:
            self.p.stdin.write(line.encode() + b"\n")
            self.p.stdin.flush()
            out = self.p.stdout.readline()
        except (BrokenPipeError, OSError):
            out = b""
        if not out:
            self.close()
            return {"ops": [], "fatal": "crash"}
        return canon_zero(json.loads(out))

    def close(self):
        if self.p is not None:
            try:
                self.p.stdin.close()
            except Exception:
                pass
            try:
                self.p.kill()
            except Exception:
                pass
            self.p.wait()
            self.p = None


class Pair:
    def __init__(self, impl_timeout="20s"):
        self.model = Proc([DRIVER])
        import runner as _r
        self.impl = Proc([_r.DIGEXEC, "-supervise", "-timeout", impl_timeout])

    def run(self, prog):
        line = json.dumps(prog, separators=(",", ":"))
        return self.model.ask(line), self.impl.ask(line)

    def close(self):
        self.model.close()
        self.impl.close()


def canon_op(op):
    """drop executor-only diagnostic keys"""
    if not isinstance(op, dict):
        return op
    return {k: v for k, v in op.items() if k not in EXTRA_KEYS}


def canon_trace(tr):
    return {"ops": [canon_op(o) for o in tr.get("ops", [])], "fatal": tr.get("fatal")}


def first_diff(mt, it):
    """index of the first op whose canonical form differs (None if traces agree)"""
    a, b = canon_trace(mt), canon_trace(it)
    if a == b:
        return None
    for i, (x, y) in enumerate(zip(a["ops"], b["ops"])):
        if x != y:
            return i
    return min(len(a["ops"]), len(b["ops"]))
