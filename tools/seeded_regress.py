#!/usr/bin/env python3
"""Apply every seeded change to /repo in turn, run the quick check of its property, undo. Reports which are detected.
With REGRESS_SCRATCH=1 the changes are applied to a scratch worktree of /repo's HEAD instead (/tmp/regress-wt-<seed>,
removed at the end), so that several seeds can run side by side and /repo stays untouched."""
import json, os, subprocess, sys, glob
os.environ.setdefault("VERIF_EVIDENCE_DIR", "/tmp/verif-evidence-seeded")   # not the committed evidence
env = dict(os.environ, GOFLAGS="-mod=mod", GOPROXY="off", GOSUMDB="off", GOTOOLCHAIN="local")
def sh(cmd, cwd=None):
    r = subprocess.run(cmd, shell=True, cwd=cwd, env=env, capture_output=True, text=True)
    return r.returncode, r.stdout + r.stderr
rc, out = sh("git -C /repo status --short")
assert out.strip() == "", "/repo not clean"
SEED = os.environ.get("VERIF_SEED", "1")
REPO = "/repo"
if os.environ.get("REGRESS_SCRATCH"):
    REPO = "/tmp/regress-wt-" + SEED
    sh("git -C /repo worktree remove --force " + REPO)
    rc, out = sh("git -C /repo worktree add --detach %s HEAD" % REPO)
    assert rc == 0, out
    env.update(VERIF_REPO=REPO, VERIF_WORK_SUFFIX="-rg" + SEED, VERIF_EVIDENCE_DIR="/tmp/verif-evidence-seeded-" + SEED)
res = {}
only = sys.argv[1:]
for d in sorted(glob.glob("/verif/seeded/*")):
    name = os.path.basename(d)
    if only and not any(o in name for o in only):
        continue
    if not os.path.exists(os.path.join(d, "meta.json")):
        continue          # seeded/harmless: behaviour-preserving rewrites (tools/tryharmless.py)
    meta = json.load(open(os.path.join(d, "meta.json")))
    prop = meta["property"]
    if meta.get("not_detected_reason"):
        print(name, prop, "stated limit (not detected): " + meta["not_detected_reason"][:80], flush=True)
        continue
    if meta.get("retired"):
        print(name, prop, "retired (no longer breaks the property on the repaired tree)", flush=True)
        continue
    rc, out = sh("git -C %s apply %s" % (REPO, os.path.join(d, "patch.diff")))
    if rc != 0:
        res[name] = "patch does not apply: " + out[:200]
        continue
    try:
        rc, out = sh("VERIF_SEED=%s ./check %s quick" % (SEED, prop), "/verif")
        res[name] = "DETECTED" if rc == 1 and "VIOLATION" in out else "MISSED"
    finally:
        sh("git -C %s checkout -- . && git -C %s clean -fdq" % (REPO, REPO))
    print(name, prop, res[name], flush=True)
if REPO != "/repo":
    sh("git -C /repo worktree remove --force " + REPO)
    sh("git -C /repo worktree prune")
sh("go build -tags verif -o digexec ./cmd/digexec", "/verif/harness")
missed = [k for k, v in res.items() if v != "DETECTED"]
print("missed:", missed)
sys.exit(1 if missed else 0)
