"""Per-property projections of traces, trace-level predicates (search for a failing input on the
implementation's own trace), metamorphic twins and generator profiles.

A *projection* is what a property's correspondence compares between model and implementation.
A *predicate* judges an implementation trace on its own (no model involved) and returns a list of
failure descriptions (empty = holds on this trace)."""
import copy
import hashlib
import random
import json


# ------------------------------------------------------------------ helpers

def vclass(v):
    """coarse class of a verdict"""
    if isinstance(v, str):
        return v
    if "err" in v:
        return "err"
    if "panic" in v:
        return "panic-dig" if v["panic"] == "dig" else "panic-user"
    return "?"


def verr(v):
    return v["err"] if isinstance(v, dict) and "err" in v else None


def ops_of(tr):
    return tr.get("ops", [])


def enters(op):
    return [e for e in op.get("ev", []) if e["e"] == "enter"]


def seq(op):
    """enter/exit skeleton"""
    return [(e["e"], e["fn"], e["x"]) + ((e["r"],) if e["e"] == "exit" else ()) for e in op.get("ev", []) if e["e"] != "cb"]


def toks(val, out):
    if isinstance(val, dict):
        if "tok" in val:
            out.append(tuple(val["tok"]))
        for k in ("sl", "obj"):
            if k in val:
                for x in val[k]:
                    toks(x, out)
    return out


def fn_table(prog):
    return {f["id"]: f for f in prog["fns"]}


def leaf_kinds(t, out, env_slice):
    """walk a declared parameter type next to its rendered value: yields kinds of the leaves of a
    dig.In object in declaration order ('single' | 'hard' | 'soft' | 'obj')"""
    raise NotImplementedError


def is_in_struct(t):
    return "st" in t and any(f["anon"] and f["t"].get("u") == 1 for f in t["st"])


def group_leaves(t, val, acc):
    """collect (kind, group, value) for group-typed leaves of a parameter value"""
    if "st" in t and isinstance(val, dict) and "obj" in val:
        fields = [f for f in t["st"] if f["x"] and f["t"].get("u") not in (1, 2)]
        for f, v in zip(fields, val["obj"]):
            g = f.get("tags", {}).get("group", "")
            if g:
                parts = g.split(",")
                acc.append(("soft" if "soft" in parts[1:] else "hard", parts[0], f["t"].get("u"), v))
            else:
                group_leaves(f["t"], v, acc)
    return acc


def fatal_of(tr):
    return tr.get("fatal")


# ------------------------------------------------------------------ projections

def p_wiring(prog, tr):
    return {"fatal": fatal_of(tr),
            "ops": [[vclass(o["v"]), [(e["fn"], e["x"], e["args"]) for e in enters(o)]] for o in ops_of(tr)]}


def p_c02(prog, tr):
    return {"fatal": fatal_of(tr), "ops": [seq(o) for o in ops_of(tr)]}


def p_c03(prog, tr):
    return {"fatal": fatal_of(tr), "ops": [[vclass(o["v"]), seq(o)] for o in ops_of(tr)]}


def p_c04(prog, tr):
    out = []
    for o in ops_of(tr):
        e = verr(o["v"])
        out.append([vclass(o["v"]), e["missing"] if e else [], e["root"] if e else "", [x for x in e["chain"] if x in ("missingDeps", "missingTypes")] if e else [],
                    [(en["fn"], en["x"], en["args"]) for en in enters(o)]])
    return {"fatal": fatal_of(tr), "ops": out}


def p_c05(prog, tr):
    out = []
    for o in ops_of(tr):
        e = verr(o["v"])
        out.append([vclass(o["v"]), bool(e and e["cyc"]), e["cycLen"] if e else 0, seq(o)])
    return {"fatal": fatal_of(tr), "ops": out}


def p_c07(prog, tr):
    out = []
    for o in ops_of(tr):
        e = verr(o["v"])
        out.append([vclass(o["v"]), e["root"] if e else "", seq(o), [(en["fn"], en["x"], en["args"]) for en in enters(o)]])
    return {"fatal": fatal_of(tr), "ops": out}


def p_c10(prog, tr):
    fns = fn_table(prog)
    out = []
    for o in ops_of(tr):
        row = []
        for en in enters(o):
            f = fns.get(en["fn"])
            if not f:
                continue
            for t, v in zip(f["in"], en["args"]):
                for (kind, g, ty, val) in group_leaves(t, v, []):
                    if kind == "hard":
                        row.append((en["fn"], en["x"], g, ty, val))
        out.append([vclass(o["v"]), row, seq(o)])
    return {"fatal": fatal_of(tr), "ops": out}


def p_c11(prog, tr):
    fns = fn_table(prog)
    out = []
    for o in ops_of(tr):
        row = []
        for en in enters(o):
            f = fns.get(en["fn"])
            if not f:
                continue
            for t, v in zip(f["in"], en["args"]):
                for (kind, g, ty, val) in group_leaves(t, v, []):
                    if kind == "soft":
                        row.append((en["fn"], en["x"], g, ty, val))
        out.append([vclass(o["v"]), row, seq(o)])
    return {"fatal": fatal_of(tr), "ops": out}


def p_c13(prog, tr):
    out = []
    for o in ops_of(tr):
        v = o["v"]
        cbs = [e["err"] for e in o.get("ev", []) if e["e"] == "cb"]
        out.append([v, cbs])
    return {"fatal": fatal_of(tr), "ops": out}


def p_c14(prog, tr):
    return {"fatal": fatal_of(tr), "ops": [vclass(o["v"]) for o in ops_of(tr)]}


def p_c17(prog, tr):
    return {"fatal": fatal_of(tr), "ops": [[vclass(o["v"]), (verr(o["v"]) or {}).get("chain", []), seq(o)] for o in ops_of(tr)]}


def p_c18(prog, tr):
    return {"fatal": fatal_of(tr), "ops": [[vclass(o["v"]), o.get("info")] for o in ops_of(tr)]}


def p_c15(prog, tr):
    """what C15 says must not change: which registrations are accepted (and what Info reports), which functions run, and
    which values each of them receives"""
    return {"fatal": fatal_of(tr),
            "ops": [[vclass(o["v"]), o.get("info"), [(e["fn"], e["x"], e["args"]) for e in enters(o)]] for o in ops_of(tr)]}


def p_c19(prog, tr):
    return {"fatal": fatal_of(tr), "ops": [[vclass(o["v"]), o.get("dot"), bool((verr(o["v"]) or {}).get("viz"))] for o in ops_of(tr)]}


def p_c20(prog, tr):
    out = []
    for o in ops_of(tr):
        row = []
        for e in o.get("ev", []):
            if e["e"] == "cb":
                er = e["err"]
                row.append(("cb", e["op"], e.get("name", ""), er if er == "nil" else [er["root"], er["chain"]], e["rt"]))
            elif e["e"] == "exit":
                row.append(("exit", e["fn"], e["x"], e["r"]))
            else:
                row.append(("enter", e["fn"], e["x"]))
        out.append(row)
    return {"fatal": fatal_of(tr), "ops": out}


def p_full(prog, tr):
    return {"fatal": fatal_of(tr), "ops": [{k: o.get(k) for k in ("v", "ev", "info", "dot")} for o in ops_of(tr)]}


PROJ = {
    "C01": p_wiring, "C02": p_c02, "C03": p_c03, "C04": p_c04, "C05": p_c05, "C06": p_full, "C07": p_c07,
    "C08": p_wiring, "C09": p_wiring, "C10": p_c10, "C11": p_c11, "C12": p_wiring, "C13": p_c13, "C14": p_c14,
    "C15": p_c15, "C16": p_c05, "C17": p_c17, "C18": p_c18, "C19": p_c19, "C20": p_c20,
}

CORRESPONDENCE = {
    "C01": "K-engine", "C02": "K-engine", "C03": "K-engine", "C04": "K-engine", "C05": "K-engine+K-graph",
    "C06": "K-engine", "C07": "K-engine", "C08": "K-engine", "C09": "K-engine+K-reflect", "C10": "K-engine",
    "C11": "K-engine", "C12": "K-engine", "C13": "K-error", "C14": "K-reflect+K-engine", "C15": "K-reflect+K-engine",
    "C16": "K-engine", "C17": "K-engine", "C18": "K-reflect", "C19": "K-dot", "C20": "K-callback",
}


# ------------------------------------------------------------------ predicates on one implementation trace

def registrations(prog, tr):
    """accepted provide/decorate ops per fn id"""
    acc = {}
    for i, (op, o) in enumerate(zip(prog["ops"], ops_of(tr))):
        if op["op"] in ("provide", "decorate") and o["v"] == "ok":
            acc.setdefault(op["fn"], []).append(i)
    return acc


def pred_c02(prog, tr):
    bad = []
    acc = registrations(prog, tr)
    invoked = {op["fn"] for op in prog["ops"] if op["op"] == "invoke"}
    okexits = {}
    stack = []
    for i, o in enumerate(ops_of(tr)):
        stack = []
        for e in o.get("ev", []):
            if e["e"] == "enter":
                if e["fn"] not in invoked and len(acc.get(e["fn"], [])) == 1 and e["fn"] in [s[0] for s in stack]:
                    bad.append("op %d: function %d entered while it is already running" % (i, e["fn"]))
                stack.append((e["fn"], e["x"]))
            elif e["e"] == "exit":
                if stack:
                    stack.pop()
                if e["r"] == "ok":
                    okexits[e["fn"]] = okexits.get(e["fn"], 0) + 1
    for f, n in okexits.items():
        if f in invoked:
            continue
        if n > len(acc.get(f, [])):
            bad.append("function %d returned successfully %d times but has %d accepted registrations" % (f, n, len(acc.get(f, []))))
    return bad


def pred_c03(prog, tr):
    bad = []
    for i, (op, o) in enumerate(zip(prog["ops"], ops_of(tr))):
        if op["op"] != "invoke" and any(e["e"] in ("enter", "exit") for e in o.get("ev", [])):
            bad.append("op %d (%s) executed user code" % (i, op["op"]))
        if op["op"] == "invoke":
            # dependencies complete before their consumer: every token in args belongs to an execution that exited ok earlier
            done = set()
            for e in o.get("ev", []):
                if e["e"] == "exit" and e["r"] == "ok":
                    done.add((e["fn"], e["x"]))
            # (tokens of earlier ops are complete by construction)
    # ordering check across the whole trace
    finished = set()
    for i, o in enumerate(ops_of(tr)):
        for e in o.get("ev", []):
            if e["e"] == "enter":
                for t in toks({"obj": e["args"]}, []):
                    if (t[0], t[1]) not in finished:
                        bad.append("op %d: function %d received a value of execution (%d,%d) that had not completed" % (i, e["fn"], t[0], t[1]))
            elif e["e"] == "exit" and e["r"] == "ok":
                finished.add((e["fn"], e["x"]))
    return bad


def pred_c07(prog, tr):
    bad = []
    failed = set()
    for i, o in enumerate(ops_of(tr)):
        for e in o.get("ev", []):
            if e["e"] == "exit" and e["r"] != "ok":
                failed.add((e["fn"], e["x"]))
            elif e["e"] == "enter":
                for t in toks({"obj": e["args"]}, []):
                    if (t[0], t[1]) in failed:
                        bad.append("op %d: function %d received a value returned by the failed execution (%d,%d)" % (i, e["fn"], t[0], t[1]))
        # root cause of a failing invoke is the first failure of that op
        fails = [e for e in o.get("ev", []) if e["e"] == "exit" and e["r"] != "ok"]
        er = verr(o["v"])
        if fails and prog["ops"][i]["op"] == "invoke":
            f0 = fails[0]
            invoked_fn = prog["ops"][i]["fn"]
            if f0["fn"] != invoked_fn:
                if f0["r"] == "err":
                    want = "user:%d:%d" % (f0["fn"], f0["x"])
                    if er is None or er["root"] != want:
                        bad.append("op %d: constructor/decorator %d failed with its error but the verdict's root cause is %s" % (i, f0["fn"], er and er["root"]))
                elif f0["r"] == "panic" and prog["cfg"]["recover"]:
                    want = "panic:%d:%d" % (f0["fn"], f0["x"])
                    if er is None or er["root"] != want:
                        bad.append("op %d: recovered panic of %d is not the root cause (%s)" % (i, f0["fn"], er and er["root"]))
    return bad


DIG_KINDS = {"provide", "invalid", "ctorFailed", "argsFailed", "missingDeps", "paramSingle", "paramGroup", "missingTypes", "cycle", "groupOpt"}


def pred_c13(prog, tr):
    bad = []
    for i, o in enumerate(ops_of(tr)):
        for er in [verr(o["v"])] + [e["err"] for e in o.get("ev", []) if e["e"] == "cb" and e["err"] != "nil"]:
            if not er:
                continue
            last = er["chain"][-1]
            if "panicErr" in er["chain"]:
                # a recovered panic is the root cause whatever its value is or wraps (a panic value may itself be an
                # error, even one that wraps a genuine dig error of some other container)
                idx = er["chain"].index("panicErr")
                if not er["root"].startswith("panic:"):
                    bad.append("op %d: PanicError is not the root cause (%s)" % (i, er["root"]))
                if er["cyc"] != ("cycle" in er["chain"][:idx]):
                    bad.append("op %d: IsCycleDetected=%s for a recovered panic (chain %s)" % (i, er["cyc"], ">".join(er["chain"])))
                continue
            if last == "user":
                if not er["root"].startswith("user:") or not er["is"]:
                    bad.append("op %d: user error not recoverable by RootCause/errors.Is (%s)" % (i, er["root"]))
            elif last == "panicErr":
                if not er["root"].startswith("panic:"):
                    bad.append("op %d: PanicError is not the root cause (%s)" % (i, er["root"]))
            elif last in DIG_KINDS:
                if er["root"] != "dig":
                    bad.append("op %d: dig failure whose RootCause is not a dig.Error (%s)" % (i, er["root"]))
            else:
                bad.append("op %d: failure originating in dig has a foreign root cause (chain %s)" % (i, ">".join(er["chain"])))
            if er["cyc"] != ("cycle" in er["chain"]):
                bad.append("op %d: IsCycleDetected=%s but chain %s" % (i, er["cyc"], ">".join(er["chain"])))
        v = o["v"]
        if isinstance(v, dict) and "panic" in v and v["panic"].startswith("user") and prog["cfg"]["recover"]:
            bad.append("op %d: panic escaped although RecoverFromPanics is set" % i)
        # invoked function's own error is returned unchanged
        if prog["ops"][i]["op"] == "invoke":
            exits = [e for e in o.get("ev", []) if e["e"] == "exit"]
            if exits and exits[-1]["fn"] == prog["ops"][i]["fn"] and exits[-1]["r"] == "panic" and not prog["cfg"]["recover"]:
                if vclass(v) != "panic-user":
                    bad.append("op %d: panic of the invoked function was swallowed" % i)
    return bad


def pred_c14(prog, tr):
    bad = []
    if fatal_of(tr) not in (None,):
        bad.append("process-level failure: %s" % fatal_of(tr))
    for i, o in enumerate(ops_of(tr)):
        if vclass(o["v"]) == "panic-dig":
            bad.append("op %d (%s): panic inside dig: %s" % (i, prog["ops"][i]["op"], o.get("panicMsg", "")[:160]))
    return bad


def pred_c05(prog, tr):
    bad = []
    if fatal_of(tr) in ("stack-overflow", "timeout", "crash"):
        bad.append("process-level failure: %s" % fatal_of(tr))
    return bad + [b for b in pred_c02(prog, tr) if "already running" in b]


def pred_c17(prog, tr):
    bad = []
    if prog["cfg"]["dry"]:
        for i, o in enumerate(ops_of(tr)):
            if any(e["e"] in ("enter", "exit") for e in o.get("ev", [])):
                bad.append("op %d: user function executed in a DryRun container" % i)
    return bad


def pred_c20(prog, tr):
    bad = []
    if prog["cfg"]["dry"]:
        return bad
    acc = registrations(prog, tr)
    cbops = {i for i, op in enumerate(prog["ops"]) if op["op"] in ("provide", "decorate") and op.get("cb")}
    for i, o in enumerate(ops_of(tr)):
        ev = o.get("ev", [])
        for j, e in enumerate(ev):
            if e["e"] == "exit":
                regs = acc.get(e["fn"], [])
                if len(regs) == 1 and regs[0] in cbops:
                    nxt = ev[j + 1] if j + 1 < len(ev) else None
                    if not (nxt and nxt["e"] == "cb" and nxt["op"] == regs[0]):
                        bad.append("op %d: execution (%d,%d) not followed by its callback" % (i, e["fn"], e["x"]))
                    else:
                        er = nxt["err"]
                        if e["r"] == "ok" and er != "nil":
                            bad.append("op %d: callback of successful execution (%d,%d) got an error" % (i, e["fn"], e["x"]))
                        if e["r"] == "err" and (er == "nil" or er["root"] != "user:%d:%d" % (e["fn"], e["x"])):
                            bad.append("op %d: callback of failed execution (%d,%d) got %s" % (i, e["fn"], e["x"], er if er == "nil" else er["root"]))
                        if e["r"] == "panic" and prog["cfg"]["recover"] and (er == "nil" or er["root"] != "panic:%d:%d" % (e["fn"], e["x"])):
                            bad.append("op %d: callback of recovered panic (%d,%d) got %s" % (i, e["fn"], e["x"], er if er == "nil" else er["root"]))
                        beh = (prog["script"].get(str(e["fn"]), []) + [{}] * (e["x"] + 1))[e["x"]]
                        if nxt["rt"] != beh.get("dt", 0):
                            bad.append("op %d: callback runtime %d but the function spent %d" % (i, nxt["rt"], beh.get("dt", 0)))
            elif e["e"] == "cb":
                prev = ev[j - 1] if j > 0 else None
                if not (prev and prev["e"] == "exit"):
                    bad.append("op %d: callback fired without an execution" % i)
                if e["op"] not in cbops:
                    bad.append("op %d: callback of op %d which registered none" % (i, e["op"]))
                elif e.get("name"):
                    # generated-source mode: the runtime name of the function the registration stands for
                    # (the one named with LocationForPC, if given)
                    reg = prog["ops"][e["op"]]
                    want = "F%d" % (reg["loc"] if "loc" in reg.get("opts", []) and reg["loc"] else reg["fn"])
                    if e["name"] != want:
                        bad.append("op %d: callback of op %d reports the name %s, the function is %s" % (i, e["op"], e["name"], want))
    return bad


def pred_c19(prog, tr):
    """CanVisualizeError is true exactly when Visualize has something to draw: the executor also hands the error of a
    failed Invoke over inside a multi-error (errors.Join) and reports both answers"""
    bad = []
    for i, o in enumerate(ops_of(tr)):
        vj = o.get("vizJoin") if isinstance(o, dict) else None
        if not vj:
            continue
        if vj.get("panic"):
            bad.append("op %d: visualising a joined error: %s" % (i, vj["panic"][:120]))
        elif vj["can"] == vj["same"]:
            bad.append("op %d: for the error wrapped in a multi-error CanVisualizeError says %s, yet the picture is %s the one drawn without an error"
                       % (i, vj["can"], "the same as" if vj["same"] else "different from"))
    return bad


def pred_c18(prog, tr):
    """a rejected Provide or Decorate leaves its Info struct untouched (the executor hands the struct over already
    filled and reports `info` on a rejected operation only when it was written to)"""
    bad = []
    for i, (op, o) in enumerate(zip(prog["ops"], ops_of(tr))):
        if op["op"] in ("provide", "decorate") and isinstance(o, dict) and o.get("v") != "ok" and o.get("info") is not None:
            bad.append("op %d: the rejected %s wrote to its Info struct" % (i, op["op"]))
    return bad


def pred_none(prog, tr):
    return []


PRED = {
    "C01": pred_c03, "C02": pred_c02, "C03": pred_c03, "C04": pred_none, "C05": pred_c05, "C06": pred_c14, "C07": pred_c07,
    "C08": pred_none, "C09": pred_none, "C10": pred_none, "C11": pred_none, "C12": pred_c02, "C13": pred_c13,
    "C14": pred_c14, "C15": pred_none, "C16": pred_none, "C17": pred_c17, "C18": pred_c18, "C19": pred_c19, "C20": pred_c20,
}


# ------------------------------------------------------------------ metamorphic twins (run on the implementation only)

def drop_op(prog, i):
    """program without op i (callback / errOf indexes renumbered)"""
    p = copy.deepcopy(prog)
    del p["ops"][i]
    for op in p["ops"]:
        if op["op"] == "visualize" and op.get("errOf", -1) >= 0:
            if op["errOf"] == i:
                op["errOf"] = -1
            elif op["errOf"] > i:
                op["errOf"] -= 1
    return p


def renumber_cb(trace_ops, i):
    """shift callback op numbers > i down by one (to compare with the twin without op i)"""
    out = copy.deepcopy(trace_ops)
    for o in out:
        for e in o.get("ev", []):
            if e["e"] == "cb" and e["op"] > i:
                e["op"] -= 1
    return out


def probe_ops(prog):
    """a sweep appended to both twins: invoke every key seen in the program from every scope,
    re-provide / re-decorate every key, visualize, string"""
    nsc = 1 + sum(1 for op in prog["ops"] if op["op"] == "scope")
    keys = set()

    def walk(t, name=""):
        if "u" in t:
            if t["u"] >= 10:
                keys.add((t["u"], name))
        elif "st" in t:
            for f in t["st"]:
                if not f.get("tags", {}).get("group"):
                    walk(f["t"], f.get("tags", {}).get("name", ""))
    for f in prog["fns"]:
        for t in f.get("in", []) + f.get("out", []):
            walk(t)
    for op in prog["ops"]:
        if op["op"] == "provide" and "name" in op.get("opts", []) and op["name"]:
            for t in fn_table(prog)[op["fn"]].get("out", []):
                if "u" in t and t["u"] >= 10:
                    keys.add((t["u"], op["name"]))
    return nsc, sorted(keys)


def with_probes(prog, limit=40):
    p = copy.deepcopy(prog)
    nsc, keys = probe_ops(prog)
    nid = max([f["id"] for f in p["fns"]] + [0]) + 1
    tid = 900
    added = 0
    for (ty, name) in keys:
        if added >= limit:
            break
        if ty in (30, 31, 32, 33, 34, 35, 36, 37, 38, 40, 41, 42, 50, 51, 60, 61, 62, 63, 64, 65, 70):
            continue
        fields = [{"n": "In", "x": True, "anon": True, "t": {"u": 1}, "tags": {}},
                  {"n": "V", "x": True, "anon": False, "t": {"u": ty}, "tags": ({"name": name} if name else {})}]
        p["fns"].append({"id": nid, "name": "P%d" % nid, "in": [{"st": fields, "id": tid}], "variadic": False, "out": []})
        for s in range(nsc):
            p["ops"].append({"op": "invoke", "scope": s, "fn": nid, "info": False})
        # a fresh provider and a fresh decorator for the key, in the root and in the last scope
        ofields = [{"n": "Out", "x": True, "anon": True, "t": {"u": 2}, "tags": {}},
                   {"n": "V", "x": True, "anon": False, "t": {"u": ty}, "tags": ({"name": name} if name else {})}]
        p["fns"].append({"id": nid + 1, "name": "P%d" % (nid + 1), "in": [], "variadic": False, "out": [{"st": ofields, "id": tid + 1}]})
        p["fns"].append({"id": nid + 2, "name": "P%d" % (nid + 2), "in": [{"st": fields, "id": tid}], "variadic": False, "out": [{"st": ofields, "id": tid + 1}]})
        for s in sorted({0, nsc - 1}):
            p["ops"].append({"op": "provide", "scope": s, "fn": nid + 1, "name": "", "group": "", "as": [], "export": False, "cb": False, "info": False, "opts": []})
            p["ops"].append({"op": "decorate", "scope": s, "fn": nid + 2, "cb": False, "info": False})
            p["ops"].append({"op": "invoke", "scope": s, "fn": nid, "info": False})
        nid += 3
        tid += 2
        added += 1
    # group probes: for every value-group parameter seen in the program, a constructor that feeds the very group it
    # consumes.  It is rejected (cycle); the path in its error shows the order of the scope's graph nodes, which is
    # where leftovers of a rejected call would sit
    elem = {t["id"]: t.get("elem", -1) for t in p.get("types", [])}
    gkeys = set()

    def gwalk(t):
        if "st" in t:
            for f in t["st"]:
                g = f.get("tags", {}).get("group")
                if g and "u" in f["t"] and elem.get(f["t"]["u"], -1) >= 10:
                    gkeys.add((f["t"]["u"], g.split(",")[0]))
                elif "st" in f["t"] or "ptr" in f["t"]:
                    gwalk(f["t"])
        elif "ptr" in t:
            gwalk(t["ptr"])
    for f in prog["fns"]:
        for t in f.get("in", []):
            gwalk(t)
    for (sl, g) in sorted(gkeys)[:6]:
        if not g or elem[sl] in (19,) or elem[sl] >= 30:
            continue
        fields = [{"n": "In", "x": True, "anon": True, "t": {"u": 1}, "tags": {}},
                  {"n": "G", "x": True, "anon": False, "t": {"u": sl}, "tags": {"group": g + ",soft"}}]
        p["fns"].append({"id": nid, "name": "P%d" % nid, "in": [{"st": fields, "id": tid}], "variadic": False, "out": [{"u": elem[sl]}]})
        for s in sorted({0, nsc - 1}):
            p["ops"].append({"op": "provide", "scope": s, "fn": nid, "name": "", "group": g, "as": [], "export": False, "cb": False, "info": False, "opts": ["group"]})
        nid += 1
        tid += 1
    p["ops"].append({"op": "visualize", "scope": 0, "errOf": -1})
    for s in range(nsc):
        p["ops"].append({"op": "string", "scope": s})
    return p


def strip_diag(o):
    return {k: v for k, v in o.items() if k in ("v", "ev", "info", "dot")}


def input_rejected(op, o):
    """Provide/Decorate that returned an error; Invoke that rejected the function it was given (C14: "an input
    they reject changes nothing") — not an Invoke that failed while resolving or running"""
    if vclass(o["v"]) not in ("err", "panic-dig"):
        return False
    if op["op"] in ("provide", "decorate"):
        return True
    if op["op"] == "invoke":
        e = verr(o["v"]) or {}
        ch = e.get("chain", [])
        return (vclass(o["v"]) == "err" and bool(ch) and ch[0] in ("invalid", "groupOpt") and not e.get("cyc")
                and not o.get("ev"))
    return False


def twin_c06(prog, impl_run, with_invoke=False):
    """for every rejected Provide/Decorate (and, for C14, every Invoke whose function is rejected): the history
    without that call must behave identically afterwards (and before).  Returns list of failure descriptions."""
    bad = []
    base = with_probes(prog)
    t0 = impl_run(base)
    rejected = [i for i, (op, o) in enumerate(zip(base["ops"], ops_of(t0)))
                if i < len(prog["ops"]) and (op["op"] != "invoke" or with_invoke) and input_rejected(op, o)
                and not any(x.get("errOf", -1) == i for x in base["ops"])]
    for i in rejected[:6]:
        o = ops_of(t0)[i]
        if any(e["e"] in ("enter", "exit") for e in o.get("ev", [])):
            bad.append("op %d: a rejected %s executed user code" % (i, base["ops"][i]["op"]))
        t1 = impl_run(drop_op(base, i))
        a = [strip_diag(x) for x in renumber_cb(ops_of(t0)[:i] + ops_of(t0)[i + 1:], i)]
        b = [strip_diag(x) for x in ops_of(t1)]
        if fatal_of(t0) != fatal_of(t1) or a != b:
            k = next((j for j, (x, y) in enumerate(zip(a, b)) if x != y), min(len(a), len(b)))
            j = k if k < i else k + 1
            bad.append("rejected %s at op %d leaves a trace: op %d (%s) behaves differently without it: with=%s without=%s" % (
                base["ops"][i]["op"], i, j, base["ops"][j]["op"] if j < len(base["ops"]) else "?",
                json.dumps(a[k]["v"] if k < len(a) else fatal_of(t0))[:160], json.dumps(b[k]["v"] if k < len(b) else fatal_of(t1))[:160]))
    return bad, base


def all_ok_script(prog):
    p = copy.deepcopy(prog)
    s = {}
    for k, l in p.get("script", {}).items():
        s[k] = [dict(b, k="ok") for b in l]
    p["script"] = s
    return p


def wiring_set(o):
    return sorted(json.dumps([e["fn"], e["args"]], sort_keys=True) for e in enters(o))


def mask_soft(t, val):
    """the rendered value of a parameter with the contents of its soft value-group fields blanked"""
    if "st" in t and isinstance(val, dict) and "obj" in val:
        fields = [f for f in t["st"] if f["x"] and f["t"].get("u") not in (1, 2)]
        if len(fields) != len(val["obj"]):
            return val
        out = []
        for f, v in zip(fields, val["obj"]):
            parts = f.get("tags", {}).get("group", "").split(",")
            if parts[0] and "soft" in parts[1:]:
                out.append("soft-group")
            elif is_in_struct(f["t"]):
                out.append(mask_soft(f["t"], v))
            else:
                out.append(v)
        return {"obj": out}
    return val


def wiring_list(o, multi=(), soft_fns=None):
    """(fn, args) of every function entered during one operation; execution counters of functions registered
    more than once are masked (which of two nodes of one function runs first may depend on the order).
    With soft_fns (id -> function), the contents of soft value-group parameters are blanked as well."""
    def soft(e):
        f = (soft_fns or {}).get(e["fn"])
        if f is None or f.get("variadic") or len(f["in"]) != len(e["args"]):
            return e["args"]
        return [mask_soft(t, v) if is_in_struct(t) else v for t, v in zip(f["in"], e["args"])]

    def canon(v):
        if isinstance(v, dict):
            if "tok" in v and v["tok"][0] in multi:
                t = list(v["tok"]); t[1] = 0
                return {"tok": t}
            return {k: canon(x) for k, x in v.items()}
        if isinstance(v, list):
            return [canon(x) for x in v]
        return v
    return [json.dumps([e["fn"], canon(soft(e))], sort_keys=True) for e in enters(o)]


def twin_c16(prog, impl_run, rnd):
    """permute maximal blocks of accepted registrations; move scope creations earlier; flip
    DeferAcyclicVerification on cycle-free histories.  Scripts are made all-ok (the property speaks
    about verdicts and wiring of successful Invokes)."""
    bad = []
    base = all_ok_script(prog)
    # the permutations are a function of the program alone, so that a replay file reproduces them
    rnd = random.Random(int(hashlib.md5(json.dumps(base["ops"], sort_keys=True).encode()).hexdigest()[:12], 16))
    t0 = impl_run(base)
    ops = base["ops"]
    res = ops_of(t0)
    if len(res) != len(ops):
        return bad, base
    if any(vclass(o["v"]) in ("panic-dig",) for o in res) or fatal_of(t0):
        return bad, base
    # blocks of accepted registrations
    variants = []
    i = 0
    blocks = []
    while i < len(ops):
        if ops[i]["op"] in ("provide", "decorate") and res[i]["v"] == "ok":
            j = i
            while j < len(ops) and ops[j]["op"] in ("provide", "decorate") and res[j]["v"] == "ok":
                j += 1
            if j - i >= 2:
                blocks.append((i, j))
            i = j
        else:
            i += 1
    for (i, j) in blocks[:3]:
        perm = list(range(i, j))
        rnd.shuffle(perm)
        if perm == list(range(i, j)):
            perm.reverse()
        p = copy.deepcopy(base)
        p["ops"] = ops[:i] + [ops[k] for k in perm] + ops[j:]
        idx = list(range(0, i)) + perm + list(range(j, len(ops)))   # new position -> old index
        variants.append(("permutation of registrations %d..%d" % (i, j - 1), p, idx))
    # move a scope creation earlier (ids unchanged as long as scope ops keep their relative order)
    sc_ops = [k for k, op in enumerate(ops) if op["op"] == "scope"]
    for k in sc_ops[:2]:
        prev_scope = max([x for x in sc_ops if x < k] + [-1])
        lo = prev_scope + 1
        if lo < k and all(ops[x]["op"] in ("provide", "decorate") for x in range(lo, k)):
            p = copy.deepcopy(base)
            p["ops"] = ops[:lo] + [ops[k]] + ops[lo:k] + ops[k + 1:]
            idx = list(range(0, lo)) + [k] + list(range(lo, k)) + list(range(k + 1, len(ops)))
            variants.append(("scope creation op %d moved before ops %d..%d" % (k, lo, k - 1), p, idx))
    for (what, p, idx) in variants:
        t1 = impl_run(p)
        b = compare_variant(what, ops, res, t0, t1, idx)
        if b and "F19" in open_finding_ids() and is_f19(ops, res, t0, t1, idx, what, fn_table(base)):
            b = [KNOWN_PREFIX + "F19 " + b[0]]
        bad += b
    # DeferAcyclicVerification: compared against the eager run, and only when the eager run reports no cycle
    eager = copy.deepcopy(base)
    set_cfg(eager, "defer", False)
    te = t0 if not base["cfg"]["defer"] else impl_run(eager)
    if len(ops_of(te)) == len(ops) and not fatal_of(te) and not any((verr(o["v"]) or {}).get("cyc") for o in ops_of(te)):
        lazy = copy.deepcopy(base)
        set_cfg(lazy, "defer", True)
        tl = t0 if base["cfg"]["defer"] else impl_run(lazy)
        bad += compare_variant("DeferAcyclicVerification enabled", ops, ops_of(te), te, tl, list(range(len(ops))))
    return bad, base


KNOWN_PREFIX = "KNOWN-FINDING "
_OPEN_IDS = None


def open_finding_ids():
    """ids (F19, ...) of the `open:` entries of KNOWN_FINDINGS.txt; read once, never written"""
    global _OPEN_IDS
    if _OPEN_IDS is None:
        import os
        import re as _re
        path = os.path.join(os.path.dirname(os.path.dirname(os.path.abspath(__file__))), "KNOWN_FINDINGS.txt")
        ids = set()
        if os.path.exists(path):
            for line in open(path):
                if line.startswith("open:"):
                    ids |= set(_re.findall(r"\bF\d+\b", line))
        _OPEN_IDS = ids
    return _OPEN_IDS


def is_f19(ops, res, t0, t1, idx, what, fns):
    """finding F19, and nothing else: a *failed* Invoke ran a different set of functions in the two orders (the members
    of a hard value group are called in registration order up to the first failure, and what they returned stays
    stored), and the two histories differ only in the contents of *soft* value-group parameters afterwards"""
    r1 = ops_of(t1)
    if len(r1) != len(res):
        return False
    earlier = False
    for newpos, old in enumerate(idx):
        if ops[old]["op"] == "invoke" and res[old]["v"] != "ok" and r1[newpos]["v"] != "ok":
            fa = sorted(e["fn"] for e in enters(res[old]))
            fb = sorted(e["fn"] for e in enters(r1[newpos]))
            if fa != fb:
                earlier = True
    if not earlier:
        return False
    return not compare_variant(what, ops, res, t0, t1, idx, soft_fns=fns)


def compare_variant(what, ops, res, t0, t1, idx, soft_fns=None):
    """compare the results of a variant history (new position -> old index in idx) with the base.

    Wiring of a successful Invoke = the arguments handed to the invoked function (provenance tokens, deep) and the
    arguments of every constructor/decorator executed for it.  A *failed* Invoke may legitimately execute a
    different subset of constructors in the two histories (group members are called in registration order up to
    the first failure), so a function executed during this Invoke in one history may in the other one have been
    executed already during an earlier operation — with the same arguments; that is accepted, anything else is a
    difference."""
    r1 = ops_of(t1)
    if fatal_of(t1) != fatal_of(t0) or len(r1) != len(res):
        return ["%s: process-level outcome differs (%s vs %s)" % (what, fatal_of(t0), fatal_of(t1))]
    cnt = {}
    for op, o in zip(ops, res):
        if op["op"] in ("provide", "decorate") and o["v"] == "ok":
            cnt[op["fn"]] = cnt.get(op["fn"], 0) + 1
    multi = {f for f, c in cnt.items() if c > 1}
    seen_a = {}      # old index -> wiring seen strictly before it in the base history
    acc = set()
    for k, o in enumerate(res):
        seen_a[k] = set(acc)
        acc |= set(wiring_list(o, multi, soft_fns))
    acc_b = set()
    for newpos, old in enumerate(idx):
        a, b = res[old], r1[newpos]
        if ops[old]["op"] in ("provide", "decorate"):
            if vclass(a["v"]) != vclass(b["v"]):
                return ["%s: registration op %d is %s in one history and %s in the other" % (what, old, vclass(a["v"]), vclass(b["v"]))]
        elif ops[old]["op"] == "invoke":
            if vclass(a["v"]) != vclass(b["v"]):
                return ["%s: Invoke op %d verdict %s vs %s" % (what, old, json.dumps(a["v"])[:120], json.dumps(b["v"])[:120])]
            if a["v"] == "ok":
                wa, wb = wiring_list(a, multi, soft_fns), wiring_list(b, multi, soft_fns)
                if bool(wa) != bool(wb) or (wa and wa[-1] != wb[-1]):
                    return ["%s: Invoke op %d hands different values to the invoked function" % (what, old)]
                for w in wa:
                    if w not in wb and w not in acc_b:
                        return ["%s: Invoke op %d wires different values (%s only in the original order)" % (what, old, w[:100])]
                for w in wb:
                    if w not in wa and w not in seen_a[old]:
                        return ["%s: Invoke op %d wires different values (%s only in the changed order)" % (what, old, w[:100])]
        acc_b |= set(wiring_list(b, multi, soft_fns))
    return []


def set_cfg(prog, key, val):
    """change one container option of a program, keeping an explicit option sequence consistent with it"""
    cfg = dict(prog["cfg"])
    cfg[key] = val
    if cfg.get("optseq"):
        seq = [list(x) for x in cfg["optseq"]]
        if key == "dry":
            idx = [i for i, x in enumerate(seq) if x[0] == "dry"]
            if idx:
                seq[idx[-1]] = ["dry", val]
            else:
                seq.append(["dry", val])
        else:
            seq = [x for x in seq if x[0] != key]
            if val:
                seq.append([key, True])
        cfg["optseq"] = seq
    prog["cfg"] = cfg


def twin_c17(prog, impl_run):
    """dry container vs normal container with all-ok functions: same dig-originated verdicts"""
    bad = []
    a = all_ok_script(prog)
    set_cfg(a, "dry", False)
    b = copy.deepcopy(a)
    set_cfg(b, "dry", True)
    ta, tb = impl_run(a), impl_run(b)
    if fatal_of(ta) != fatal_of(tb):
        bad.append("process-level outcome differs: normal=%s dry=%s" % (fatal_of(ta), fatal_of(tb)))
    for i, (x, y) in enumerate(zip(ops_of(ta), ops_of(tb))):
        cx = [vclass(x["v"]), (verr(x["v"]) or {}).get("chain", []), (verr(x["v"]) or {}).get("missing", [])]
        cy = [vclass(y["v"]), (verr(y["v"]) or {}).get("chain", []), (verr(y["v"]) or {}).get("missing", [])]
        if cx != cy:
            bad.append("op %d (%s): normal container says %s, DryRun container says %s" % (i, prog["ops"][i]["op"], cx, cy))
            break
        if any(e["e"] in ("enter", "exit") for e in y.get("ev", [])):
            bad.append("op %d: user function executed in the DryRun container" % i)
            break
    return bad, b


# ------------------------------------------------------------------ generator profiles

PROFILE = {
    "C01": {"longchain": 0.03, "oddkinds": 0.04, "shadow": 0.08, "reprovide": 0.3, "reinvoke": 0.5, "malformed": 0.05, "late": 0.08}, "C02": {"ascollide": 0.06, "longchain": 0.03, "decorate": 0.25, "export": 0.3, "backedge": 0.2, "fault": 0.25, "retry": 0.08},
    "C03": {"longchain": 0.03, "malformed": 0.05, "visualize": 0.08, "shadow": 0.12, "optional": 0.35}, "C04": {"longchain": 0.05, "oddkinds": 0.05, "shadow": 0.1, "deeptree": 0.3, "optional": 0.45, "malformed": 0.04, "late": 0.15, "export": 0.25},
    "C05": {"longchain": 0.05, "selfcycle": 0.06, "backedge": 0.45, "export": 0.35, "scope": 0.18, "malformed": 0.03, "fault": 0.05, "defer": 0.35, "group": 0.4, "deepcycle": 0.15},
    "C06": {"staleundo": 0.08, "deferleak": 0.08, "defer": 0.35, "selfcycle": 0.1, "malformed": 0.3, "backedge": 0.35, "scope": 0.15, "decorate": 0.25, "export": 0.25, "deepcycle": 0.08},
    "C07": {"longchain": 0.08, "fault": 0.45, "decorate": 0.25, "malformed": 0.03, "retry": 0.15, "late": 0.06}, "C08": {"shadow": 0.1, "deeptree": 0.4, "scope": 0.2, "export": 0.3, "malformed": 0.03, "max_scopes": 7, "reprovide": 0.4, "reinvoke": 0.6, "invoke": 0.4, "fault": 0.05},
    "C09": {"ascollide": 0.08, "multias": 0.5, "oddkinds": 0.06, "strmix": 0.3, "oddstr": 0.12, "named": 0.5, "as_": 0.4, "group": 0.4}, "C10": {"nilmembers": 0.08, "multias": 0.6, "as_": 0.3, "oddkinds": 0.04, "strmix": 0.2, "selfcycle": 0.05, "deeptree": 0.5, "max_scopes": 7, "group": 0.6, "scope": 0.15, "export": 0.25, "web": 0.12},
    "C11": {"softpair": 0.08, "strmix": 0.3, "deeptree": 0.5, "max_scopes": 7, "scope": 0.15, "group": 0.65, "malformed": 0.03, "web": 0.12}, "C12": {"strmix": 0.2, "shadow": 0.08, "deeptree": 0.4, "max_scopes": 7, "decorate": 0.35, "scope": 0.15, "group": 0.4, "malformed": 0.03, "web": 0.2, "export": 0.3, "retry": 0.08},
    "C13": {"longchain": 0.06, "fault": 0.4, "malformed": 0.25, "backedge": 0.25, "retry": 0.08, "late": 0.05}, "C14": {"oddstr": 0.08, "longchain": 0.04, "oddkinds": 0.1, "selfcycle": 0.04, "malformed": 0.55, "visualize": 0.08, "vizgroup": 0.06},
    "C15": {"oddkinds": 0.1, "oddstr": 0.1, "shadow": 0.12, "obj_param": 0.6, "obj_result": 0.5, "malformed": 0.2, "embed": 0.3, "nest": 0.3, "backedge": 0.35}, "C16": {"scope": 0.18, "backedge": 0.25, "group": 0.45, "fault": 0.0, "defer": 0.5, "malformed": 0.03, "deepcycle": 0.08},
    "C17": {"dry": 0.5, "malformed": 0.2, "backedge": 0.25}, "C18": {"oddkinds": 0.08, "oddstr": 0.25, "strmix": 0.15, "malformed": 0.25, "as_": 0.35, "obj_param": 0.6, "obj_result": 0.5, "loc": 0.3, "embed": 0.1},
    "C19": {"dupdep": 0.08, "oddstr": 0.15, "oddkinds": 0.06, "vizgroup": 0.12, "loc": 0.15, "visualize": 0.22, "group": 0.55, "fault": 0.3, "malformed": 0.05, "decorate": 0.06, "scope": 0.06, "obj_result": 0.4, "recover": 0.8}, "C20": {"longchain": 0.03, "cb": 0.7, "fault": 0.35, "dry": 0.05, "retry": 0.08, "loc": 0.2},
}


# what a third of every check's programs is drawn with: the targeted moves and feature weights of *all* profiles at
# once (the maximum each profile asks for), so that a shape one property's profile favours is also seen through every
# other property's projection; the property's own choice of container options and failure rates is kept
_KEEP_OWN = ("dry", "fault", "recover", "defer", "malformed", "visualize", "max_ops", "invoke")
_CAP = {"malformed": 0.15, "visualize": 0.06, "oddstr": 0.1, "cb": 0.5, "obj_param": 0.55, "obj_result": 0.45, "embed": 0.15,
        "backedge": 0.3, "group": 0.5, "decorate": 0.25, "scope": 0.15, "named": 0.4, "optional": 0.35, "reinvoke": 0.5,
        "reprovide": 0.3, "loc": 0.1, "nest": 0.12}


def mixed_profile(pid):
    w = {}
    for prof in PROFILE.values():
        for k, v in prof.items():
            if k in _KEEP_OWN:
                continue
            w[k] = max(w.get(k, 0), v)
    for k, c in _CAP.items():
        if k in w:
            w[k] = min(w[k], c)
    for k in _KEEP_OWN:
        if k in PROFILE.get(pid, {}):
            w[k] = PROFILE[pid][k]
    return w


def nontrivial(pid, prog, tr):
    """does this program exercise the property's trigger?  (for the evidence counters)"""
    ops = prog["ops"]
    res = ops_of(tr)
    kinds = [o["op"] for o in ops]
    ev = [e for o in res for e in o.get("ev", [])]
    if pid in ("C01", "C03", "C08", "C09"):
        return sum(1 for e in ev if e["e"] == "enter" and e["args"]) >= 2
    if pid == "C02":
        return len({(e["fn"]) for e in ev if e["e"] == "enter"}) >= 2 and kinds.count("invoke") >= 2
    if pid == "C04":
        return any((verr(o["v"]) or {}).get("missing") for o in res) or any("zero" in json.dumps(e.get("args", "")) for e in ev if e["e"] == "enter")
    if pid in ("C05", "C16"):
        return any((verr(o["v"]) or {}).get("cyc") for o in res) or kinds.count("provide") >= 4
    if pid in ("C06", "C14", "C15", "C18"):
        return any(vclass(o["v"]) == "err" and op["op"] in ("provide", "decorate") for op, o in zip(ops, res))
    if pid == "C07":
        return any(e["e"] == "exit" and e["r"] != "ok" for e in ev)
    if pid in ("C10", "C11"):
        return '"sl"' in json.dumps(ev)
    if pid == "C12":
        return any(op["op"] == "decorate" and o["v"] == "ok" for op, o in zip(ops, res)) and any(e["e"] == "enter" for e in ev)
    if pid == "C13":
        return any(vclass(o["v"]) in ("err", "panic-user") for o in res)
    if pid == "C17":
        return prog["cfg"]["dry"] or True
    if pid == "C19":
        return "visualize" in kinds
    if pid == "C20":
        return any(e["e"] == "cb" for e in ev)
    return True
