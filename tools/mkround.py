#!/usr/bin/env python3
"""Prepare a round of seeded changes: one scratch worktree of /repo per property under /tmp/mut<N>/<id> and a
self-contained prompt /tmp/mut<N>/<id>.prompt.txt for the sub-agent that is to write the change.  The prompt holds the
property text and one-line summaries of the changes already used for it (so that the new one differs) -- nothing
else from /verif.  usage: mkround.py <N> [extra guidance file]"""
import json, os, subprocess, sys, glob
N = sys.argv[1]
extra = open(sys.argv[2]).read() if len(sys.argv) > 2 else ""
root = "/tmp/mut%s" % N
os.makedirs(root, exist_ok=True)
props = {}
for l in open("/verif/properties.jsonl"):
    d = json.loads(l)
    props[d["id"]] = d.get("statement") or d.get("description")
for pid, text in sorted(props.items()):
    wt = "%s/%s" % (root, pid)
    if not os.path.isdir(wt):
        subprocess.check_call(["git", "-C", "/repo", "worktree", "add", "--detach", wt, "HEAD"], stdout=subprocess.DEVNULL, stderr=subprocess.DEVNULL)
    used = []
    for m in sorted(glob.glob("/verif/seeded/%s-*/meta.json" % pid)) + sorted(glob.glob("/verif/seeded/%s/meta.json" % pid)):
        try:
            s = json.load(open(m)).get("summary", "")
        except Exception:
            continue
        if s:
            used.append("  - " + " ".join(s.split())[:280])
    prompt = f"""You are working in a scratch git worktree of the Go library uber-go/dig (dependency injection container):
`{wt}`. Work ONLY inside that directory. Never read, touch or cd into /repo or /verif. Do not use
`git stash`, `git commit`, `git worktree` or `git reset`; use only `git diff`, `git checkout -- <file>` and
`git apply` for version-control operations. The sandbox is offline: prefix go commands with
`GOFLAGS=-mod=mod GOPROXY=off GOSUMDB=off GOTOOLCHAIN=local`.

The library is documented to satisfy this semantic property ({pid}):

> {text}

Your task: write ONE realistic change to the library's non-test source (`*.go`, not `*_test.go`; the kind
of change a maintainer could make as a refactoring, optimisation or "bug fix" and a reviewer could wave
through) that BREAKS this property, while
  (a) the package still compiles and `go vet ./...` is clean,
  (b) the existing test-suite still passes exactly as before (`go test -count=1 ./...`; the one test
      `TestProvideLocation` fails already on the unchanged tree — ignore it),
  (c) the breakage is NOT exposed by ordinary use: it must need something specific to manifest — a multi-step
      sequence of operations, a particular scope-tree shape, an unusual but legal input, a failure at a
      particular point followed by a retry, or two cooperating sites in the code that each look fine alone.
      Prefer subtle over blatant; a change that any simple Provide+Invoke would reveal is not wanted.

These ideas have ALREADY been used for this property — do something different in mechanism and in the code
site it touches:
{chr(10).join(used) if used else "  (none yet)"}

Deliver, in `{wt}/MUTANT/`:
  * `patch.diff` — `git diff` of your change to the library sources only (must apply with `git apply` to the
    unchanged tree; do not include the demo test or the MUTANT directory in it);
  * `demo_test.go` — a Go test file in `package dig_test` (or `package dig`) with exactly one test function
    `TestMutantDemo`, using only the public API of `go.uber.org/dig` and the standard library (testify is
    available in the module too), that PASSES on the unchanged tree and FAILS with your change. It will be
    copied into the repository root as `zz_mutant_demo_test.go`. It must be deterministic (value groups are
    shuffled at random by dig: compare as multisets);
  * `meta.json` — `{{"property": "{pid}", "summary": "<what you changed, 2-4 sentences>", "needs": "<what
    exactly is needed for the breakage to manifest and why ordinary use does not show it>", "files": [...],
    "ran": {{"suite_before": "...", "suite_after": "...", "demo_before": "...", "demo_after": "..."}}}}`.

Before finishing, verify all of (a), (b), (c) yourself: run the demo on the unchanged tree (pass), apply the
change, run the demo (fail), run the whole suite with the change (same results as without it), and
`git apply --check` the patch against a clean checkout of the files (`git checkout -- .` then
`git apply --check MUTANT/patch.diff`). Leave the worktree with your change APPLIED and the MUTANT directory
filled. Remove any other files you created. Your final answer: two or three sentences saying what the change
is and what it needs in order to manifest.

{extra}"""
    open("%s/%s.prompt.txt" % (root, pid), "w").write(prompt)
print("prepared", len(props), "worktrees under", root)
