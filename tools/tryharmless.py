#!/usr/bin/env python3
"""tryharmless.py <worktree> <name>
A behaviour-preserving refactoring of dig (REFACTOR/patch.diff, note.md in the worktree) must not raise any alarm:
1. confirm in a fresh scratch worktree that the suite passes as the baseline with the patch;
2. apply it to /repo, run every quick check, undo it;  3. keep it under /verif/seeded/harmless/<name>/ with the outcome."""
import json, os, subprocess, sys, shutil
os.environ.setdefault("VERIF_EVIDENCE_DIR", "/tmp/verif-evidence-seeded")   # not the committed evidence
env = dict(os.environ, GOFLAGS="-mod=mod", GOPROXY="off", GOSUMDB="off", GOTOOLCHAIN="local")
wt, name = sys.argv[1], sys.argv[2]
def sh(cmd, cwd=None):
    r = subprocess.run(cmd, shell=True, cwd=cwd, env=env, capture_output=True, text=True)
    return r.returncode, r.stdout + r.stderr
patch = os.path.join(wt, "REFACTOR", "patch.diff")
res = {"name": name}
scratch = wt + "-confirm"
sh("git -C /repo worktree remove --force %s" % scratch)
sh("git -C /repo worktree add -q --detach %s HEAD" % scratch)
try:
    rc, out = sh("git apply %s" % patch, scratch)
    res["patch_applies"] = rc == 0
    rc, out = sh("go build ./... && go build -tags verif ./... && go test -json -vet=off -count=1 ./...", scratch)
    passed = set()
    for line in out.splitlines():
        try:
            j = json.loads(line)
        except Exception:
            continue
        if j.get("Action") == "pass" and j.get("Test"):
            passed.add("%s::%s" % (j["Package"], j["Test"]))
    want = set(json.load(open("/root/.vp/BASELINE.json"))["stable_pass"])
    res["suite_ok"] = not (want - passed)
    res["suite_missing"] = sorted(want - passed)[:5]
finally:
    sh("git -C /repo worktree remove --force %s" % scratch)
res["checks"] = {}
if res.get("patch_applies") and res.get("suite_ok") and os.environ.get("MUTANT_SCRATCH"):
    # /repo is busy: check a scratch worktree of HEAD with the rewrite applied
    chk = wt + "-check"
    sh("git -C /repo worktree remove --force %s" % chk)
    sh("git -C /repo worktree add -q --detach %s HEAD" % chk)
    try:
        sh("git apply %s" % patch, chk)
        for k in range(1, 21):
            p = "C%02d" % k
            r = subprocess.run("./check %s quick" % p, shell=True, cwd="/verif", env=dict(env, VERIF_REPO=chk, VERIF_WORK_SUFFIX="-scratch"),
                               capture_output=True, text=True)
            out = r.stdout + r.stderr
            res["checks"][p] = {"exit": r.returncode, "lines": [l for l in out.splitlines() if l.startswith("VIOLATION") or l.startswith("  ")][:4]}
    finally:
        sh("git -C /repo worktree remove --force %s" % chk)
elif res.get("patch_applies") and res.get("suite_ok"):
    rc, out = sh("git -C /repo status --short")
    assert out.strip() == "", "/repo not clean"
    sh("git -C /repo apply %s" % patch)
    try:
        for k in range(1, 21):
            p = "C%02d" % k
            rc, out = sh("./check %s quick" % p, "/verif")
            res["checks"][p] = {"exit": rc, "lines": [l for l in out.splitlines() if l.startswith("VIOLATION") or l.startswith("  ")][:4]}
    finally:
        sh("git -C /repo checkout -- .")
res["alarms"] = sorted(p for p, c in res["checks"].items() if c["exit"] != 0)
d = os.path.join("/verif/seeded/harmless", name)
os.makedirs(d, exist_ok=True)
shutil.copy(patch, os.path.join(d, "patch.diff"))
try:
    shutil.copy(os.path.join(wt, "REFACTOR", "note.md"), os.path.join(d, "note.md"))
except Exception:
    pass
json.dump(res, open(os.path.join(d, "result.json"), "w"), indent=1)
print(json.dumps({k: v for k, v in res.items() if k != "checks"}, indent=1))
for p in res["alarms"]:
    print(p, res["checks"][p]["lines"])
