"""K-graph: internal/graph.IsAcyclic (through the verif hook) against Dfs.isAcyclic of the model,
exhaustively on all digraphs with at most 4 nodes (self-loops included), plus random larger graphs
with random successor orders.  Each answer is also judged on its own (real closed walk / really acyclic)."""
import json
import multiprocessing as mp
import random
import runner


def has_cycle(n, succ):
    color = [0] * n
    def dfs(u):
        color[u] = 1
        for v in succ[u]:
            if color[v] == 1 or (color[v] == 0 and dfs(v)):
                return True
        color[u] = 2
        return False
    return any(color[u] == 0 and dfs(u) for u in range(n))


def judge(n, succ, ans):
    if ans.get("fatal"):
        return "process-level failure %s" % ans["fatal"]
    if ans["ok"]:
        if has_cycle(n, succ):
            return "graph with a cycle accepted as acyclic"
        return None
    c = ans["cycle"]
    if len(c) < 2 or c[0] != c[-1]:
        return "reported cycle %s is not closed" % c
    for a, b in zip(c, c[1:]):
        if b not in succ[a]:
            return "reported cycle %s uses a non-edge %d->%d" % (c, a, b)
    return None


def graphs_exhaustive(n):
    m = n * n
    for bits in range(1 << m):
        yield [[v for v in range(n) if bits >> (u * n + v) & 1] for u in range(n)]


def work(args):
    kind, a, b, seed = args
    model = runner.Proc([runner.DRIVER])
    impl = runner.Proc([runner.DIGEXEC])
    fails, count, cyclic = [], 0, 0
    def one(n, succ):
        nonlocal count, cyclic
        req = json.dumps({"kind": "graph", "n": n, "succ": succ}, separators=(",", ":"))
        ma, ia = model.ask(req), impl.ask(req)
        count += 1
        cyclic += 0 if ia.get("ok") else 1
        j = judge(n, succ, ia)
        if j:
            fails.append({"kind": "graph", "descr": "IsAcyclic: " + j, "graph": {"n": n, "succ": succ}, "impl": ia, "model": ma})
        elif {k: ma.get(k) for k in ("ok", "cycle")} != {k: ia.get(k) for k in ("ok", "cycle")}:
            fails.append({"kind": "graph", "descr": "K-graph: model and implementation answer differently", "graph": {"n": n, "succ": succ}, "impl": ia, "model": ma})
    if kind == "ex":
        n = a
        m = n * n
        lo, hi = b
        for bits in range(lo, hi):
            one(n, [[v for v in range(n) if bits >> (u * n + v) & 1] for u in range(n)])
            if len(fails) > 3:
                break
    else:
        r = random.Random(seed)
        for _ in range(a):
            n = r.randrange(1, b + 1)
            p = r.choice([0.05, 0.1, 0.2, 0.4])
            succ = []
            for u in range(n):
                s = [v for v in range(n) if r.random() < p]
                if r.random() < 0.3:
                    s = s + [r.randrange(0, n)]     # duplicate edges
                r.shuffle(s)
                succ.append(s)
            one(n, succ)
            if len(fails) > 3:
                break
    model.close(); impl.close()
    return count, cyclic, fails


def run(tier, seed):
    tasks = [("ex", 1, (0, 2), 0), ("ex", 2, (0, 16), 0), ("ex", 3, (0, 512), 0)]
    step = 65536 // 16
    tasks += [("ex", 4, (lo, lo + step), 0) for lo in range(0, 65536, step)]
    nrand, maxn = (2000, 14) if tier == "quick" else (60000, 40)
    tasks += [("rand", nrand // 16, maxn, seed * 7919 + k) for k in range(16)]
    with mp.Pool(16) as pool:
        res = pool.map(work, tasks)
    count = sum(r[0] for r in res)
    cyclic = sum(r[1] for r in res)
    fails = [f for r in res for f in r[2]]
    return {"graphs": count, "cyclic": cyclic, "exhaustive_upto_nodes": 4, "random_graphs": nrand, "random_max_nodes": maxn}, fails
