"""K-graph: internal/graph.IsAcyclic (through the verif hook) against Dfs.isAcyclic of the model,
exhaustively on all digraphs with at most 4 nodes (self-loops included), plus random larger graphs
with random successor orders.  Each answer is also judged on its own (real closed walk / really acyclic)."""
import json
import multiprocessing as mp
import random
import runner


def has_cycle(n, succ):
    """iterative three-colour search (graphs here may be thousands of nodes deep)"""
    color = [0] * n
    for root in range(n):
        if color[root]:
            continue
        color[root] = 1
        stack = [(root, 0)]
        while stack:
            u, i = stack.pop()
            if i < len(succ[u]):
                stack.append((u, i + 1))
                v = succ[u][i]
                if color[v] == 1:
                    return True
                if color[v] == 0:
                    color[v] = 1
                    stack.append((v, 0))
            else:
                color[u] = 2
    return False


MODEL_MAX = 2100


def big_graphs(tier, seed):
    """structured graphs whose size or depth crosses the thresholds at which fixed-width counters, pre-sized buffers
    and small-case fast paths change behaviour: long chains, one back edge somewhere, wide fans, big rings"""
    r = random.Random(seed * 31 + 5)
    sizes = [100, 127, 128, 129, 255, 256, 257, 300, 511, 512, 513, 1023, 1025]
    if tier != "quick":
        sizes += [2047, 2049, 4100, 33000, 66000]
    out = []
    for n in sizes:
        chain = [[u + 1] if u + 1 < n else [] for u in range(n)]
        out.append((n, chain))                                                   # a chain walked from node 0
        out.append((n, [[u - 1] if u else [] for u in range(n)]))                # the same chain numbered backwards
        for j in sorted({0, 1, n // 2, n - 2, 126, 127, 128, 254, 255, 256, 257} & set(range(n - 1))):
            g = [list(x) for x in chain]
            g[n - 1] = [j]                                                       # ... closed by one edge back to node j
            out.append((n, g))
        g = [list(x) for x in chain]
        j, k = sorted(r.sample(range(n), 2))
        g[k] = g[k] + [j]                                                        # a back edge somewhere in the middle
        out.append((n, g))
        if n <= 4100:
            out.append((n, [list(range(1, n))] + [[] for _ in range(n - 1)]))    # a fan
            out.append((n, [list(range(1, n))] + [[n - 1] if u < n - 1 else [0] for u in range(1, n)]))   # fan, sink back to the hub
    return out


def judge(n, succ, ans):
    if ans.get("fatal"):
        return "process-level failure %s" % ans["fatal"]
    if ans["ok"]:
        if has_cycle(n, succ):
            return "graph with a cycle accepted as acyclic"
        return None
    c = ans["cycle"]
    if len(c) < 2 or c[0] != c[-1]:
        return "reported cycle %s is not closed" % c
    for a, b in zip(c, c[1:]):
        if b not in succ[a]:
            return "reported cycle %s uses a non-edge %d->%d" % (c, a, b)
    return None


def graphs_exhaustive(n):
    m = n * n
    for bits in range(1 << m):
        yield [[v for v in range(n) if bits >> (u * n + v) & 1] for u in range(n)]


def work(args):
    kind, a, b, seed = args
    model = runner.Proc([runner.DRIVER])
    impl = runner.Proc([runner.DIGEXEC])
    fails, count, cyclic = [], 0, 0
    def one(n, succ):
        nonlocal count, cyclic
        req = json.dumps({"kind": "graph", "n": n, "succ": succ}, separators=(",", ":"))
        ia = impl.ask(req)
        # the model's list-based search is quadratic: beyond MODEL_MAX nodes the implementation's answer is only judged on its own
        ma = model.ask(req) if n <= MODEL_MAX else ia
        count += 1
        cyclic += 0 if ia.get("ok") else 1
        j = judge(n, succ, ia)
        if j:
            fails.append({"kind": "graph", "descr": "IsAcyclic: " + j, "graph": {"n": n, "succ": succ}, "impl": ia, "model": ma})
        elif {k: ma.get(k) for k in ("ok", "cycle")} != {k: ia.get(k) for k in ("ok", "cycle")}:
            fails.append({"kind": "graph", "descr": "K-graph: model and implementation answer differently", "graph": {"n": n, "succ": succ}, "impl": ia, "model": ma})
    if kind == "ex":
        n = a
        m = n * n
        lo, hi = b
        for bits in range(lo, hi):
            one(n, [[v for v in range(n) if bits >> (u * n + v) & 1] for u in range(n)])
            if len(fails) > 3:
                break
    elif kind == "big":
        for (n, succ) in a:
            one(n, succ)
            if len(fails) > 3:
                break
    else:
        r = random.Random(seed)
        for _ in range(a):
            n = r.randrange(1, b + 1)
            p = r.choice([0.05, 0.1, 0.2, 0.4])
            succ = []
            for u in range(n):
                s = [v for v in range(n) if r.random() < p]
                if r.random() < 0.3:
                    s = s + [r.randrange(0, n)]     # duplicate edges
                r.shuffle(s)
                succ.append(s)
            one(n, succ)
            if len(fails) > 3:
                break
    model.close(); impl.close()
    return count, cyclic, fails


def run(tier, seed):
    tasks = [("ex", 1, (0, 2), 0), ("ex", 2, (0, 16), 0), ("ex", 3, (0, 512), 0)]
    step = 65536 // 16
    tasks += [("ex", 4, (lo, lo + step), 0) for lo in range(0, 65536, step)]
    nrand, maxn = (2000, 14) if tier == "quick" else (60000, 40)
    tasks += [("rand", nrand // 16, maxn, seed * 7919 + k) for k in range(16)]
    big = big_graphs(tier, seed)
    tasks += [("big", big[k::8], None, 0) for k in range(8)]
    with mp.Pool(16) as pool:
        res = pool.map(work, tasks)
    count = sum(r[0] for r in res)
    cyclic = sum(r[1] for r in res)
    fails = [f for r in res for f in r[2]]
    return {"graphs": count, "cyclic": cyclic, "exhaustive_upto_nodes": 4, "random_graphs": nrand, "random_max_nodes": maxn,
            "structured_large_graphs": len(big), "largest_graph_nodes": max(n for n, _ in big)}, fails
