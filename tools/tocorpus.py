#!/usr/bin/env python3
"""tocorpus.py <replay.json> <name> <props,comma> <note>  — keep a minimised failing program as a regression"""
import json, sys
r = json.load(open(sys.argv[1]))
out = {"name": sys.argv[2], "properties": sys.argv[3].split(","), "note": sys.argv[4],
       "found_as": {"property": r.get("property"), "kind": r.get("kind"), "descr": r.get("descr"), "seed": r.get("seed")},
       "program": r["program"]}
json.dump(out, open("/verif/corpus/%s.json" % sys.argv[2], "w"), indent=1)
print("corpus/%s.json" % sys.argv[2])
