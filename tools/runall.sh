#!/bin/sh
# run every quick check on the current tree; non-zero exit if any reports a violation
cd "$(dirname "$0")/.." || exit 2
# inside `vp run --with-repo` the checks must read the repository snapshot, not /repo (which may carry a seeded change)
[ -n "$VP_RUN_REPO" ] && export VERIF_REPO="$VP_RUN_REPO"
rc=0
for p in C01 C02 C03 C04 C05 C06 C07 C08 C09 C10 C11 C12 C13 C14 C15 C16 C17 C18 C19 C20; do
  out=$(./check $p ${1:-quick} 2>&1); r=$?
  echo "$p exit=$r $(echo "$out" | grep -E 'proof:|explored' | tr '\n' ' ')"
  echo "$out" | grep VIOLATION
  [ $r -ne 0 ] && rc=1
done
exit $rc
