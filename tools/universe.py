"""The fixed type universe of PROTOCOL.md §2.1 (facts are cross-checked against `digexec -types`)."""

def _t(id, kind, elem=-1, impl=(), isErr=False):
    return {"id": id, "kind": kind, "elem": elem, "impl": list(impl), "isErr": isErr}

PTRS = list(range(10, 18))           # *T0..*T7
IFACES = [20, 21, 22]
IMPLS = {10: [20, 22, 23, 24], 11: [20, 21, 22, 23, 24], 12: [21, 22], 13: [22], 14: [22], 15: [22], 16: [22], 17: [22]}

TYPES = [
    _t(0, "iface", isErr=True), _t(1, "struct"), _t(2, "struct"), _t(3, "ptr", 1), _t(4, "ptr", 2),
    _t(5, "iface", isErr=True),      # EI: a user-defined interface embedding error
]
for p in PTRS:
    TYPES.append(_t(p, "ptr", -1, IMPLS[p]))
TYPES.append(_t(19, "struct"))
for i in IFACES:
    TYPES.append(_t(i, "iface", -1, [i] if i != 20 else [20, 24]))
TYPES.append(_t(23, "iface", -1, [20, 22, 23, 24]))   # I3 = interface{ MI0(); MI2() }
TYPES.append(_t(25, "struct", isErr=True))       # VErr: an error type with a value receiver (never nil): every call fails (Ctx.forced); outside the model only under DryRun
TYPES.append(_t(24, "iface", -1, [20, 24]))           # I0x = interface{ MI0() }: another type with the method set of I0
for n in range(8):
    TYPES.append(_t(30 + n, "slice", 10 + n))
TYPES.append(_t(38, "slice", 19))
for n in range(3):
    TYPES.append(_t(40 + n, "slice", 20 + n))
TYPES.append(_t(50, "slice", 10, [20, 24]))
TYPES.append(_t(51, "slice", 11))
for n in range(4):
    TYPES.append(_t(60 + n, "slice", 30 + n))
TYPES.append(_t(64, "slice", 50))
TYPES.append(_t(65, "slice", 51))
TYPES.append(_t(70, "other"))
TYPES.append(_t(71, "other", -1, [20, 24]))   # ZI: an int8 with a value-receiver method, implements I0; its scripted value is always zero
TYPES.append(_t(80, "other"))        # [2]*T0
TYPES.append(_t(81, "other"))        # Huge = [1<<61]struct{}
TYPES.append(_t(82, "other"))        # chan *Big, Big = [1<<17]byte (reflect.ChanOf refuses `chan Big`)
TYPES.append(_t(83, "other"))        # map[string]*T0
TYPES.append(_t(84, "other"))        # func() *T0
TYPES.append(_t(85, "other"))        # <-chan *T0: a type whose name has an angle bracket in it
TYPES.append(_t(86, "other"))        # [1<<20]*Giant, Giant = [1<<45]byte: an array of pointers whose "array of elements" cannot exist; parameter type only

BY_ID = {t["id"]: t for t in TYPES}

def slice_of(elem):
    for t in TYPES:
        if t["kind"] == "slice" and t["elem"] == elem and t["id"] not in (50, 51):
            return t["id"]
    return None
