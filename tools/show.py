"""show one program and both traces around the first disagreement"""
import json, sys, os
sys.path.insert(0, os.path.dirname(os.path.abspath(__file__)))
import gen, runner

def short_t(t):
    if "u" in t: return "u%d" % t["u"]
    if "ptr" in t: return "*" + short_t(t["ptr"])
    return "{" + ",".join(("%s%s:%s%s" % ("~" if f["anon"] else "", f["n"], short_t(f["t"]), json.dumps(f["tags"]) if f.get("tags") else "")) for f in t["st"]) + "}#%d" % t["id"]

def show_fn(f):
    if "nonfunc" in f: return "F%d nonfunc=%s" % (f["id"], f["nonfunc"])
    return "F%d(%s%s) -> (%s)" % (f["id"], ", ".join(short_t(t) for t in f["in"]), " variadic" if f.get("variadic") else "", ", ".join(short_t(t) for t in f["out"]))

def main():
    if sys.argv[1].endswith(".json"):
        prog = json.load(open(sys.argv[1]))
        if "program" in prog: prog = prog["program"]
    else:
        w = json.loads(sys.argv[2]) if len(sys.argv) > 2 else None
        prog = gen.generate(int(sys.argv[1]), w)
    pair = runner.Pair()
    mt, it = pair.run(prog)
    pair.close()
    i = runner.first_diff(mt, it)
    print("cfg", prog["cfg"], "script", json.dumps(prog["script"]))
    fns = {f["id"]: f for f in prog["fns"]}
    for k, op in enumerate(prog["ops"]):
        o = {x: y for x, y in op.items() if x not in ("op",)}
        line = "%2d %s %s" % (k, op["op"], json.dumps(o))
        if "fn" in op and op["fn"] in fns: line += "   " + show_fn(fns[op["fn"]])
        print(line)
        mo = mt["ops"][k] if k < len(mt["ops"]) else None
        io_ = it["ops"][k] if k < len(it["ops"]) else None
        if i is not None and k == i:
            print("   MODEL:", json.dumps(mo, sort_keys=True))
            print("   IMPL :", json.dumps(io_, sort_keys=True))
            break
        else:
            v = mo and mo.get("v")
            print("      ->", json.dumps(v)[:200])
    print("fatal model/impl:", mt.get("fatal"), it.get("fatal"), it.get("fatalMsg", "")[:300])

main()
