#!/usr/bin/env python3
"""Which statements of /repo's dig does the correspondence check actually execute?

Builds the executor with Go's coverage instrumentation for go.uber.org/dig/..., feeds it the corpus,
K-graph requests and N generated programs per property profile (the same generator and profiles the
checks use), and reports statement coverage per file plus the uncovered blocks.  A statement that is
never executed is code the model is *not* tied to by differential testing.

usage: tools/gocover.py [programs-per-profile=300] [seed=1]   ->  coverage/REPORT.md, coverage/uncovered.txt"""
import json, os, shutil, subprocess, sys, collections
HERE = os.path.dirname(os.path.abspath(__file__))
VERIF = os.path.dirname(HERE)
sys.path.insert(0, HERE)
import gen, props, kgraph  # noqa
env = dict(os.environ, GOFLAGS="-mod=mod", GOPROXY="off", GOSUMDB="off", GOTOOLCHAIN="local")
n = int(sys.argv[1]) if len(sys.argv) > 1 else 300
seed = int(sys.argv[2]) if len(sys.argv) > 2 else 1
work = os.path.join(VERIF, ".work", "cover")
shutil.rmtree(work, ignore_errors=True)
os.makedirs(work)
for name in ("go.mod", "go.sum", "pool", "exec", "cmd"):
    src = os.path.join(VERIF, "harness", name)
    (shutil.copytree if os.path.isdir(src) else shutil.copy)(src, os.path.join(work, name))
os.makedirs(os.path.join(work, "m2gen"))
shutil.copy(os.path.join(VERIF, "harness", "m2gen", "doc.go"), os.path.join(work, "m2gen", "doc.go"))
r = subprocess.run(["go", "build", "-tags", "verif", "-cover", "-coverpkg=go.uber.org/dig/...,verif/harness/...", "-o", "digexec-cover", "./cmd/digexec"],
                   cwd=work, env=env, capture_output=True, text=True)
if r.returncode != 0:
    print(r.stderr[-3000:]); sys.exit(2)
lines = []
d = os.path.join(VERIF, "corpus")
for f in sorted(os.listdir(d)):
    if f.endswith(".json"):
        lines.append(json.dumps(json.load(open(os.path.join(d, f)))["program"], separators=(",", ":")))
for pid in sorted(props.PROFILE):
    for k in range(n):
        lines.append(json.dumps(gen.generate(seed * 1000003 + k, props.PROFILE[pid]), separators=(",", ":")))
import random
rnd = random.Random(seed)
for _ in range(200):
    m = rnd.randrange(1, 8)
    succ = [[rnd.randrange(0, m) for _ in range(rnd.randrange(0, 3))] for _ in range(m)]
    lines.append(json.dumps({"kind": "graph", "n": m, "succ": succ}))
covdir = os.path.join(work, "covdata")
os.makedirs(covdir)
# several plain workers: a program that kills its process (stack overflow) only loses that worker's counters
chunks = [lines[i::8] for i in range(8)]
procs = []
for i, ch in enumerate(chunks):
    p = subprocess.Popen([os.path.join(work, "digexec-cover")], stdin=subprocess.PIPE, stdout=subprocess.DEVNULL, stderr=subprocess.DEVNULL,
                         env=dict(env, GOCOVERDIR=covdir))
    procs.append((p, ch))
for p, ch in procs:
    try:
        p.stdin.write(("\n".join(ch) + "\n").encode()); p.stdin.close()
    except BrokenPipeError:
        pass
for p, _ in procs:
    p.wait()
out = os.path.join(work, "cover.txt")
subprocess.run(["go", "tool", "covdata", "textfmt", "-i=" + covdir, "-o=" + out], cwd=work, env=env, check=True)
stm = collections.defaultdict(lambda: [0, 0]); unc = collections.defaultdict(list)
for l in open(out):
    if l.startswith("mode:"):
        continue
    loc, ns, cnt = l.rsplit(" ", 2)
    f, rng = loc.split(":")
    if not f.startswith("go.uber.org/dig/"):
        continue
    f = f.replace("go.uber.org/dig/", "")
    ns, cnt = int(ns), int(cnt)
    stm[f][1] += ns
    if cnt > 0:
        stm[f][0] += ns
    else:
        unc[f].append((rng, ns))
os.makedirs(os.path.join(VERIF, "coverage"), exist_ok=True)
tot = [sum(v[0] for v in stm.values()), sum(v[1] for v in stm.values())]
with open(os.path.join(VERIF, "coverage", "REPORT.md"), "w") as o:
    o.write("# Statements of /repo executed by the correspondence inputs\n\n%d programs per profile x %d profiles + corpus + 200 graph requests, seed %d (reflect mode M1 only; hooks file excluded from the claim)\n\n" % (n, len(props.PROFILE), seed))
    o.write("| file | covered | statements | % |\n|---|---|---|---|\n")
    for f in sorted(stm):
        c, t = stm[f]
        o.write("| %s | %d | %d | %.1f |\n" % (f, c, t, 100.0 * c / max(t, 1)))
    o.write("| **total** | %d | %d | %.1f |\n" % (tot[0], tot[1], 100.0 * tot[0] / max(tot[1], 1)))
with open(os.path.join(VERIF, "coverage", "uncovered.txt"), "w") as o:
    for f in sorted(unc):
        for rng, ns in sorted(unc[f], key=lambda x: [int(y) for y in x[0].replace(",", ".").split(".")]):
            o.write("%s:%s (%d stmts)\n" % (f, rng, ns))
print(open(os.path.join(VERIF, "coverage", "REPORT.md")).read())
shutil.rmtree(work, ignore_errors=True)
